"""C16 - spectral polynomial calculus is exact on the polynomial space of the grid.

Reference: vlib.refspectral (numpy.polynomial.chebyshev only, closed-form discrete Chebyshev
transform, no matrix inversion, no WallGo code).

Sub-oracles
  nodes            compact nodes per direction equal -cos(pi k/n) (Grid and Grid3Scales)
  matrix           Polynomial.matrix entry-wise
  derivMatrix      Polynomial.derivMatrix entry-wise
  changeBasis      Cardinal <-> Chebyshev coefficients equal the reference transform
  roundtrip        changing basis and back returns the same coefficients
  evaluate         value at arbitrary points of [-1,1] (incl. nodes and +-1), either basis
  evaluate-single-point   1-D coordinate input (documented shape (len(axes),))
  derivative       exact derivative at ALL Lobatto nodes incl. +-1; result labelled Cardinal/endpoints
  integrate        exact integral for weights r(x)sqrt(1-x^2), r(x)/sqrt(1-x^2), r(x)sqrt((1+x)/(1-x))
                   with the integrand inside the Gauss-Chebyshev-Lobatto exactness class
  side-effects     basis/direction/endpoints labels after changeBasis/integrate/derivative are
                   consistent with the stored coefficients
  linearity        op(a P1 + b P2) = a op(P1) + b op(P2), the combination built by Polynomial arithmetic
  shape            result shapes
Enumerated configuration cases apply every operation to the identity matrix (all basis functions at
once): by linearity this verifies the complete operator of that configuration up to rounding.
"""
from __future__ import annotations

import functools
import itertools

import numpy as np
from hypothesis import strategies as st

from vlib import refspectral as R
from vlib.core import Verdict

PROPERTY_ID = "C16"
ENGINE = "exhaustive enumeration of the (grid kind, M, N, direction, endpoints, basis) lattice + hypothesis @given"
RULE = (
    "Enumerated: every (grid kind in {Grid, Grid3Scales}) x M in [2,12] x N in [3,11] x direction x "
    "endpoints x basis; each case applies matrix/derivMatrix/changeBasis/evaluate/derivative/integrate "
    "to the identity coefficient matrix (every basis function, i.e. every admissible degree) and, for "
    "integrate, every weight r = T_j inside the exactness class. Generated: rank 1-4 coefficient "
    "arrays a*P1 + b*P2 with P1, P2 outer products of per-axis polynomials (1-x^2)q, (1-x)q or q with "
    "integer Chebyshev coefficients of drawn degree, mixed 'Array'/polynomial axes, random bases, "
    "axes subsets, evaluation points (dyadic, nodes, +-1), weights filling the exactness class. "
    "Non-trivial = degree >= 2 along some polynomial axis and, for rank >= 2, at least two polynomial "
    "axes of different direction; enumerated configurations count as non-trivial when n >= 2. "
    "Distinct by canonical JSON of the case."
)
BUDGET = {
    "quick": {"cases": 3000, "shrink": True, "time_cap_s": 600},
    "thorough": {"cases": 150000, "shrink": True, "time_cap_s": 3000},
}
EPS = R.EPS
KR = 8.0
TOLERANCES = {
    "eps": EPS,
    "KR": KR,
    "rounding_rule": "tol = KR*(n+4)*eps * sum_k |c_k| * (|B_k| + |B_k'| (+ |B_k''| for derivatives) + 1) "
                     "evaluated by the reference at the same points (condition computed, not guessed); "
                     "measured on the unchanged tree (thorough tier, 152 617 cases, n up to 40): error/bound < 0.5 everywhere, < 0.1 in 99.9 %",
    "node_tol_eps": 8.0,
    "basis_change_inverse": "4*cond2(node matrix) * (|G| + 1/size) in place of the condition term",
}
EXHAUSTIVE_SUBDOMAINS = [
    "quick+thorough: {Grid,Grid3Scales} x M in [2,12] x N in [3,11] x {z,pz,pp} x endpoints x "
    "{Cardinal,Chebyshev}: complete linear operators (identity coefficient matrix) for matrix, "
    "derivMatrix, changeBasis, evaluate (all nodes + 17 dyadic points), derivative, integrate "
    "(all Chebyshev weights T_j in the exactness class)",
    "thorough adds M in {16,20,25,32,40} x N in {13,17,21,25}",
]
ASSUMPTIONS = [
    "Evaluation points are compact coordinates in [-1,1].",
    "Integration weights are passed as float arrays of node values computed from the grid's own "
    "compact coordinates; weights that are infinite at a kept node are outside the domain, so "
    "r/sqrt(1-x^2) is used only on axes without endpoints ('z','pz') and r*sqrt((1+x)/(1-x)) on 'pp' "
    "without endpoints; with endpoints only r*sqrt(1-x^2). The endpoint half-weights are therefore "
    "never observable (they always multiply sqrt(1-x^2) = 0).",
    "Coefficient arrays are float64.",
    "changeBasis(inverseTranspose=True) is not part of the property and is not exercised.",
    "A single point given as a 1-D coordinate array together with a proper subset of axes is a "
    "documented input shape; its failure is reported under its own sub-oracle.",
]

QUICK_M = list(range(2, 13))
QUICK_N = list(range(3, 12))
THOROUGH_M = [16, 20, 25, 32, 40]
THOROUGH_N = [13, 17, 21, 25]
LARGE_SIZES = {"quick": [60, 300], "thorough": [60, 100, 150, 200, 250, 292, 293, 294, 300, 350, 400]}
OFFNODE = [(-1.0 + k / 8.0) for k in range(17)]  # 17 dyadic points incl. +-1 and 0


# ---------------------------------------------------------------------------
# reference data, cached per (direction, n, endpoints)
# ---------------------------------------------------------------------------
class AxRef:
    def __init__(self, direction, n, endpoints):
        M = N = None
        if direction == "z":
            M, N = n, 3
        elif direction == "pz":
            M, N = 2, n
        else:
            M, N = 2, n + 1
        self.ax = ax = R.Axis(direction, M, N, endpoints)
        self.n = ax.n
        self.size = ax.size
        self.tolfac = KR * (ax.n + 4) * EPS
        self.V = {b: ax.node_matrix(b) for b in R.BASES}
        self.V1 = {b: ax.eval_deriv_matrix(ax.nodes, b, 1) for b in R.BASES}
        self.D = {b: ax.deriv_matrix(b, 1) for b in R.BASES}
        self.D2 = {b: ax.deriv_matrix(b, 2) for b in R.BASES}
        self.BT = {b: ax.basis_T(b) for b in R.BASES}
        self.kappa = float(np.linalg.cond(self.V["Chebyshev"]))
        self.G = {
            ("Cardinal", "Chebyshev"): ax.change_matrix("Cardinal", "Chebyshev"),
            ("Chebyshev", "Cardinal"): ax.change_matrix("Chebyshev", "Cardinal"),
        }
        # bound matrices (>= |reference matrix| elementwise)
        self.Gb = {
            ("Cardinal", "Chebyshev"): 4.0 * self.kappa * (np.abs(self.G[("Cardinal", "Chebyshev")]) + 1.0 / ax.size),
            ("Chebyshev", "Cardinal"): np.abs(self.V["Chebyshev"]) + np.abs(self.V1["Chebyshev"]) + 1.0,
        }
        self.Db = {b: np.abs(self.D[b]) + np.abs(self.D2[b]) + 1.0 for b in R.BASES}
        # true degree of each basis function
        self.bdeg = {"Cardinal": np.full(ax.size, ax.n), "Chebyshev": ax.degrees.copy()}

    def change(self, old, new):
        if old == new:
            return np.eye(self.size), np.eye(self.size)
        return self.G[(old, new)], self.Gb[(old, new)]

    def evalm(self, x, basis):
        """(E, Eb): value matrix and bound matrix at points x."""
        E = self.ax.eval_matrix(x, basis)
        E1 = self.ax.eval_deriv_matrix(x, basis, 1)
        return E, np.abs(E) + np.abs(E1) + 1.0


@functools.lru_cache(maxsize=None)
def axref(direction, n, endpoints) -> AxRef:
    return AxRef(direction, n, bool(endpoints))


def ref_for(direction, M, N, endpoints) -> AxRef:
    return axref(direction, R.order_of(direction, M, N), bool(endpoints))


def make_grid(gk, M, N):
    from WallGo.grid import Grid
    from WallGo.grid3Scales import Grid3Scales

    if gk == "Grid3Scales":
        return Grid3Scales(M, N, 2.5, 3.5, 1.0, 1.5, 0.5, 0.1, 0.25)
    return Grid(M, N, 1.25, 1.5)


def _maxratio(err, tol):
    err = np.asarray(err, dtype=float)
    tol = np.asarray(tol, dtype=float)
    if err.size == 0:
        return 0.0
    with np.errstate(all="ignore"):
        r = err / tol
    r = np.where(np.isnan(err), np.inf, r)
    return float(np.max(r))


def _cmp(v, sub, cls, got, exp, tol, what, key=None):
    """Compare arrays; record the worst error/bound ratio; fail if > 1."""
    got = np.asarray(got, dtype=float)
    exp = np.asarray(exp, dtype=float)
    if got.shape != exp.shape:
        v.fail("shape", cls, f"{what}: result shape {got.shape}, expected {exp.shape}")
        return False
    tol = np.broadcast_to(np.asarray(tol, dtype=float), exp.shape) + 1e-300
    ratio = _maxratio(np.abs(got - exp), tol)
    k = key or sub
    v.info[k] = max(v.info.get(k, 0.0), ratio)
    if not ratio <= 1.0:
        idx = np.unravel_index(int(np.argmax(np.where(np.isnan(got - exp), np.inf, np.abs(got - exp) / tol))), exp.shape) if exp.shape else ()
        v.fail(sub, cls, f"{what}: error {float(np.abs(got - exp)[idx]):.3e} exceeds rounding bound "
               f"{float(tol[idx]):.3e} at index {tuple(int(i) for i in idx)} (got {float(got[idx])!r}, "
               f"expected {float(exp[idx])!r})")
        return False
    return True


# ---------------------------------------------------------------------------
# enumerated configuration cases
# ---------------------------------------------------------------------------
def enumerate_cases(tier):
    for gk, M, N, d, e, b in itertools.product(
        ("Grid", "Grid3Scales"), QUICK_M, QUICK_N, R.DIRECTIONS, (False, True), R.BASES
    ):
        yield {"kind": "config", "gk": gk, "M": M, "N": N, "dir": d, "ep": e, "basis": b}
    # fine grids ("every grid size"): nodes + the complete cardinal/Chebyshev derivative operator only (the other
    # sub-oracles cost minutes per configuration at these sizes).  Round-4 seed: exact node-coincidence tests replaced
    # by np.isclose, wrong from 293 nodes on, where neighbouring Gauss-Lobatto nodes are closer than 1e-8 apart.
    for n, d, e in itertools.product(LARGE_SIZES[tier], R.DIRECTIONS, (False, True)):
        n_ = n + 1 if (d != "z" and n % 2 == 0) else n       # momentum grids have odd N
        yield {"kind": "config", "gk": "Grid", "M": n_ if d == "z" else 3, "N": 3 if d == "z" else n_, "dir": d,
               "ep": e, "basis": "Cardinal", "only": "derivMatrix"}
    if tier == "thorough":
        for M, N, d, e, b in itertools.product(THOROUGH_M, THOROUGH_N, R.DIRECTIONS, (False, True), R.BASES):
            yield {"kind": "config", "gk": "Grid", "M": M, "N": N, "dir": d, "ep": e, "basis": b}


def _weight_kinds(direction, ep):
    """Admissible weight families for an axis: (name, extra T-series factor multiplying r in the
    Chebyshev-weighted integrand, function giving the weight values at nodes)."""
    out = [("sqrt", R.T_ONE_MINUS_X2)]
    if not ep and direction in ("z", "pz"):
        out.append(("invsqrt", np.array([1.0])))
    if not ep and direction == "pp":
        out.append(("ratio", R.T_ONE_PLUS_X))
    return out


def _weight_values(kind, x, rvals):
    s = np.sqrt((1.0 - x) * (1.0 + x))
    if kind == "sqrt":
        return rvals * s
    if kind == "invsqrt":
        return rvals / s
    if kind == "ratio":
        with np.errstate(all="ignore"):
            w = rvals * np.sqrt((1.0 + x) / (1.0 - x))
        return w
    raise ValueError(kind)


def _quad_bound(ref, basis, q):
    """Condition term of the quadrature sum_j q_j p(x_j) for every basis function (plus a floor for
    the reference's own rounding when single terms vanish)."""
    Vb = np.eye(ref.size) if basis == "Cardinal" else (np.abs(ref.V[basis]) + np.abs(ref.V1[basis]) + 1.0)
    return q @ Vb + q.sum() / ref.size


def check_config(case, v: Verdict):
    from WallGo.polynomial import Polynomial

    gk, M, N, d, ep, b = case["gk"], case["M"], case["N"], case["dir"], bool(case["ep"]), case["basis"]
    ref = ref_for(d, M, N, ep)
    ax = ref.ax
    n, size = ref.n, ref.size
    other = "Chebyshev" if b == "Cardinal" else "Cardinal"
    cls = f"{d} ep={ep} {b} {gk}"
    v.label(f"config:{d}", f"ep:{ep}", f"basis:{b}", f"grid:{gk}", f"n:{n}")
    v.nontrivial = n >= 2
    grid = make_grid(gk, M, N)

    # nodes
    v.checked("nodes")
    x = np.asarray(grid.getCompactCoordinates(ep, d), dtype=float)
    if x.shape != ax.nodes.shape:
        v.fail("nodes", cls, f"{x.shape[0]} nodes, expected {ax.nodes.shape[0]}")
        return
    if not _cmp(v, "nodes", cls, x, ax.nodes, 8.0 * EPS, "compact nodes"):
        return
    tup = grid.getCompactCoordinates(ep)
    idx = {"z": 0, "pz": 1, "pp": 2}[d]
    if not np.array_equal(np.asarray(tup[idx]), x):
        v.fail("nodes", cls, "getCompactCoordinates(direction) differs from the tuple entry")
    xfull = np.asarray(grid.getCompactCoordinates(True, d), dtype=float)

    eye = np.eye(size)
    P0 = Polynomial(np.zeros(size), grid, b, d, ep)
    tf = ref.tolfac

    # matrix / derivMatrix entry-wise
    v.checked("matrix")
    _cmp(v, "matrix", cls, P0.matrix(b, d, ep), ref.V[b], tf * (np.abs(ref.V[b]) + np.abs(ref.V1[b]) + 1.0), f"matrix({b})")
    v.checked("derivMatrix")
    _cmp(v, "derivMatrix", cls, P0.derivMatrix(b, d, ep), ref.D[b], tf * ref.Db[b], f"derivMatrix({b})")
    if case.get("only") == "derivMatrix":
        v.label("config:large-derivMatrix-only")
        return

    def ident():
        return Polynomial(eye.copy(), grid, (b, "Array"), (d, "z"), (ep, False))

    # changeBasis on all basis functions, and back
    v.checked("changeBasis")
    P = ident()
    P.changeBasis((other, "Array"))
    G, Gb = ref.change(b, other)
    ok = _cmp(v, "changeBasis", cls, P.coefficients, G, tf * Gb, f"changeBasis {b}->{other} of the identity")
    if P.basis != (other, "Array"):
        v.fail("side-effects", cls, f"basis label after changeBasis is {P.basis}")
    if ok:
        v.checked("roundtrip")
        P.changeBasis((b, "Array"))
        G2, Gb2 = ref.change(other, b)
        _cmp(v, "roundtrip", cls, P.coefficients, eye, 2 * tf * (Gb2 @ np.abs(G) + np.abs(G2) @ Gb), "round trip of the identity")

    # evaluate at all full nodes and at 17 dyadic points
    v.checked("evaluate")
    pts = np.concatenate([xfull, np.array(OFFNODE)])
    E, Eb = ref.evalm(np.concatenate([ax.full, np.array(OFFNODE)]), b)
    got = ident().evaluate(pts[None, :], (0,))
    _cmp(v, "evaluate", cls, got, E, tf * Eb, "evaluate of all basis functions")
    # kept nodes: coefficient k of a cardinal series is its value at node k
    v.checked("evaluate-nodes")
    got = ident().evaluate(x[None, :], (0,))
    _cmp(v, "evaluate-nodes", cls, got, ref.V[b], tf * (np.abs(ref.V[b]) + np.abs(ref.V1[b]) + 1.0), "evaluate at grid nodes")

    # derivative at all nodes including +-1
    v.checked("derivative")
    dP = ident().derivative(0)
    _cmp(v, "derivative", cls, dP.coefficients, ref.D[b], tf * ref.Db[b], "derivative of all basis functions")
    v.checked("side-effects")
    if dP.basis != ("Cardinal", "Array") or tuple(dP.endpoints) != (True, False) or tuple(dP.direction) != (d, "z"):
        v.fail("side-effects", cls, f"derivative labels basis={dP.basis} endpoints={dP.endpoints} direction={dP.direction}")

    # integrate: every Chebyshev weight T_j inside the exactness class
    v.checked("integrate")
    nint = 0
    for wkind, extra in _weight_kinds(d, ep):
        xdeg = len(extra) - 1
        jmax_all = 2 * n - 1 - xdeg - int(ref.bdeg[b].min())
        for j in range(0, max(-1, jmax_all) + 1):
            tj = np.zeros(j + 1)
            tj[j] = 1.0
            rvals = R.tval(x, tj)
            w = _weight_values(wkind, x, rvals)
            mask = ref.bdeg[b] + j + xdeg <= 2 * n - 1
            if not mask.any():
                continue
            exp = np.array([np.pi * R.tmul(R.tmul(ref.BT[b][k], tj), extra)[0] for k in range(size)])
            # bound: |quadrature terms| through the cardinal values
            q = np.abs(ax.quad_weights() * _weight_values(wkind, x, np.ones_like(x)) * np.sqrt(1 - x**2))
            bound = 2 * tf * _quad_bound(ref, b, q)
            Pi = ident()
            res = Pi.integrate(0, w[:, None])
            got = np.asarray(res.coefficients, dtype=float)
            if got.shape != (size,):
                v.fail("shape", cls, f"integrate result shape {got.shape}")
                return
            nint += int(mask.sum())
            _cmp(v, "integrate", cls + f" w={wkind}", got[mask], exp[mask], bound[mask],
                 f"integrate(weight=T_{j}*{wkind}) of basis functions", key=f"integrate:{wkind}")
            if Pi.basis[0] != "Cardinal":
                v.fail("side-effects", cls, f"basis label of the integrated axis after integrate is {Pi.basis}")
            else:
                # the object was converted in place: its coefficients must now be node values
                _cmp(v, "side-effects", cls, Pi.coefficients, ref.V[b],
                     tf * (np.abs(ref.V[b]) + np.abs(ref.V1[b]) + 1.0), "coefficients after integrate", key="side-effects")
            if tuple(res.basis) != ("Array",) or res.coefficients.shape != (size,):
                v.fail("side-effects", cls, f"integrate result labels {res.basis} {res.direction}")
    v.info["integrals_checked"] = nint


# ---------------------------------------------------------------------------
# generated multi-axis cases
# ---------------------------------------------------------------------------
def _restr_deg(direction, ep):
    if ep:
        return 0
    return 2 if direction in ("z", "pz") else 1


@st.composite
def st_axis_poly(draw, n, rdeg):
    """One per-axis polynomial: degree d in [rdeg, n] and integer T-coefficients of q (degree d-rdeg),
    or the zero polynomial."""
    if n < rdeg:
        return {"deg": -1, "q": []}
    mode = draw(st.sampled_from(["max", "max", "min", "any", "any"]))
    d = n if mode == "max" else rdeg if mode == "min" else draw(st.integers(rdeg, n))
    q = [draw(st.integers(-9, 9)) for _ in range(d - rdeg + 1)]
    if q[-1] == 0:
        q[-1] = draw(st.sampled_from([-5, -1, 1, 2, 7]))
    return {"deg": d, "q": q}


@st.composite
def st_point(draw, nfull):
    kind = draw(st.sampled_from(["dy", "dy", "dy", "node", "end", "near"]))
    if kind == "dy":
        e = draw(st.integers(1, 20))
        m = draw(st.integers(-(2 ** e), 2 ** e))
        return ["dy", m, e]
    if kind == "node":
        return ["node", draw(st.integers(0, nfull - 1))]
    if kind == "end":
        return ["end", draw(st.sampled_from([-1, 1]))]
    return ["near", draw(st.integers(0, nfull - 1)), draw(st.integers(-40, -20)), draw(st.sampled_from([-1, 1]))]


def _point_value(spec, full):
    if spec[0] == "dy":
        return float(spec[1]) / 2.0 ** spec[2]
    if spec[0] == "node":
        return float(full[spec[1]])
    if spec[0] == "end":
        return float(spec[1])
    x = float(full[spec[1]]) + spec[3] * 2.0 ** spec[2]
    return float(min(1.0, max(-1.0, x)))


@st.composite
def st_subset(draw, items, nonempty=True):
    mask = [draw(st.booleans()) for _ in items]
    if nonempty and not any(mask):
        mask[draw(st.integers(0, len(items) - 1))] = True
    return [it for it, m in zip(items, mask) if m]


@st.composite
def st_poly_case(draw, tier):
    rank = draw(st.sampled_from([1, 2, 2, 3, 3, 4]))
    if tier == "thorough":
        capM, capN = {1: (40, 25), 2: (40, 25), 3: (16, 13), 4: (9, 8)}[rank]
    else:
        capM, capN = {1: (12, 11), 2: (12, 11), 3: (12, 11), 4: (8, 7)}[rank]
    M = draw(st.integers(2, capM))
    N = draw(st.integers(3, capN))
    gk = draw(st.sampled_from(["Grid", "Grid", "Grid3Scales"]))
    axes = []
    for i in range(rank):
        t = draw(st.sampled_from(["poly", "poly", "poly", "Array"]))
        if t == "Array":
            axes.append({"t": "Array", "size": draw(st.integers(1, 3))})
        else:
            axes.append({"t": "poly", "dir": draw(st.sampled_from(R.DIRECTIONS)),
                         "ep": draw(st.booleans()), "basis": draw(st.sampled_from(R.BASES))})
    if not any(a["t"] == "poly" for a in axes):
        i = draw(st.integers(0, rank - 1))
        axes[i] = {"t": "poly", "dir": draw(st.sampled_from(R.DIRECTIONS)),
                   "ep": draw(st.booleans()), "basis": draw(st.sampled_from(R.BASES))}
    terms = []
    for _ in range(2):
        vecs = []
        for a in axes:
            if a["t"] == "Array":
                vecs.append([draw(st.integers(-9, 9)) for _ in range(a["size"])])
            else:
                n = R.order_of(a["dir"], M, N)
                vecs.append(draw(st_axis_poly(n, _restr_deg(a["dir"], a["ep"]))))
        terms.append(vecs)
    ab = [draw(st.integers(-12, 12)) / 4.0, draw(st.integers(-12, 12)) / 4.0]
    pol = [i for i, a in enumerate(axes) if a["t"] == "poly"]
    newbasis = [draw(st.sampled_from(R.BASES)) if a["t"] == "poly" else "Array" for a in axes]
    ev_axes = draw(st_subset(pol))
    npts = draw(st.integers(1, 3))
    ev_pts = [[draw(st_point(R.order_of(axes[i]["dir"], M, N) + 1)) for _ in range(npts)] for i in ev_axes]
    single = bool(npts == 1 and draw(st.booleans()))
    de_axes = draw(st_subset(pol))
    in_axes = draw(st_subset(pol))
    in_spec = []
    for i in in_axes:
        a = axes[i]
        n = R.order_of(a["dir"], M, N)
        kinds = [k for k, _ in _weight_kinds(a["dir"], a["ep"])]
        wk = draw(st.sampled_from(kinds))
        xdeg = {"sqrt": 2, "invsqrt": 0, "ratio": 1}[wk]
        pdeg = max(t[i]["deg"] for t in terms)
        room = 2 * n - 1 - xdeg - max(pdeg, 0)
        if room < 0:
            in_spec.append({"w": wk, "r": None})
            continue
        fill = draw(st.sampled_from(["full", "full", "any"]))
        rd = room if fill == "full" else draw(st.integers(0, room))
        r = [draw(st.integers(-5, 5)) for _ in range(rd + 1)]
        if r[-1] == 0:
            r[-1] = draw(st.sampled_from([-3, 1, 2]))
        in_spec.append({"w": wk, "r": r})
    wshape = draw(st.sampled_from(["min", "full"]))
    return {"kind": "poly", "gk": gk, "M": M, "N": N, "axes": axes, "terms": terms, "ab": ab,
            "newbasis": newbasis, "ev_axes": ev_axes, "ev_pts": ev_pts, "single": single,
            "de_axes": de_axes, "in_axes": in_axes, "in_spec": in_spec, "wshape": wshape}


def strategy(tier):
    return st_poly_case(tier)


def _axis_vector(a, spec, M, N):
    """Coefficient vector (in the axis' own basis) and T-series of one per-axis polynomial."""
    ref = ref_for(a["dir"], M, N, a["ep"])
    if spec["deg"] < 0:
        return np.zeros(ref.size), np.zeros(1)
    q = np.array(spec["q"], dtype=float)
    rdeg = _restr_deg(a["dir"], a["ep"])
    t = q
    if rdeg == 2:
        t = R.tmul(q, R.T_ONE_MINUS_X2)
    elif rdeg == 1:
        t = R.tmul(q, R.T_ONE_MINUS_X)
    return ref.ax.coeffs_from_T(t, a["basis"]), t


def _outer(vecs):
    out = np.array(1.0)
    for vec in vecs:
        out = np.multiply.outer(out, np.asarray(vec, dtype=float))
    return out


def _apply_seq(arr, mats):
    """mats: list of (axis, matrix) applied in place (each keeps its axis)."""
    for axis, m in mats:
        arr = R.apply_along(m, arr, axis)
    return arr


def check_poly(case, v: Verdict):
    from WallGo.polynomial import Polynomial

    M, N, axes = case["M"], case["N"], case["axes"]
    rank = len(axes)
    grid = make_grid(case["gk"], M, N)
    pol = [i for i, a in enumerate(axes) if a["t"] == "poly"]
    refs = {i: ref_for(axes[i]["dir"], M, N, axes[i]["ep"]) for i in pol}
    basis = tuple(a["basis"] if a["t"] == "poly" else "Array" for a in axes)
    direction = tuple(a["dir"] if a["t"] == "poly" else "Array" for a in axes)
    endpoints = tuple(bool(a["ep"]) if a["t"] == "poly" else False for a in axes)
    a_, b_ = case["ab"]
    arrs = []
    for term in case["terms"]:
        vecs = []
        for a, spec in zip(axes, term):
            vecs.append(np.array(spec, dtype=float) if a["t"] == "Array" else _axis_vector(a, spec, M, N)[0])
        arrs.append(_outer(vecs))
    A1, A2 = arrs
    A = a_ * A1 + b_ * A2
    absA = np.abs(a_) * np.abs(A1) + np.abs(b_) * np.abs(A2)
    degs = {i: max(t[i]["deg"] for t in case["terms"]) for i in pol}
    dirs = {axes[i]["dir"] for i in pol}
    v.nontrivial = bool(max(degs.values()) >= 2 and (rank == 1 or len(dirs) >= 2))
    v.label(f"rank:{rank}", f"npoly:{len(pol)}", f"grid:{case['gk']}",
            *[f"axis:{axes[i]['dir']}/{'ep' if axes[i]['ep'] else 'noep'}/{axes[i]['basis'][:4]}" for i in pol],
            "deg:max" if any(degs[i] == refs[i].n for i in pol) else "deg:low",
            "has_array_axis" if len(pol) < rank else "all_poly")
    cls0 = f"rank={rank}"

    def cls_for(i):
        a = axes[i]
        return f"{a['dir']} ep={bool(a['ep'])} {a['basis']} rank={rank}"

    def mk(arr, bas=basis, ep=endpoints):
        return Polynomial(np.array(arr, dtype=float), grid, tuple(bas), direction, tuple(ep))

    tfsum = lambda idx: sum(refs[i].tolfac for i in idx)  # noqa: E731

    # ---- arithmetic builds the combination --------------------------------------
    v.checked("linearity")
    P1, P2 = mk(A1), mk(A2)
    P = a_ * P1 + b_ * P2
    if not _cmp(v, "linearity", cls0, P.coefficients, A, 4 * EPS * absA, "a*P1 + b*P2 coefficients", key="arith"):
        return
    if tuple(P.basis) != basis or tuple(P.direction) != direction or tuple(P.endpoints) != endpoints:
        v.fail("side-effects", cls0, f"labels of a*P1+b*P2: {P.basis} {P.direction} {P.endpoints}")
        return

    def lin_check(sub, cls, f, tol, what):
        """op(a P1 + b P2) vs a op(P1) + b op(P2)."""
        r = f(mk(P.coefficients))
        r1, r2 = f(mk(A1)), f(mk(A2))
        _cmp(v, "linearity", cls, r, a_ * np.asarray(r1) + b_ * np.asarray(r2), 3 * np.asarray(tol), f"linearity of {what}", key=f"lin:{sub}")

    # ---- changeBasis -----------------------------------------------------------------
    nb = tuple(case["newbasis"])
    changed = [i for i in pol if nb[i] != basis[i]]
    v.checked("changeBasis")
    mats, bmats = [], []
    for i in changed:
        G, Gb = refs[i].change(basis[i], nb[i])
        mats.append((i, G))
        bmats.append((i, Gb))
    exp = _apply_seq(A, mats)
    tol_cb = (tfsum(changed) + 4 * EPS) * _apply_seq(absA, bmats)
    Pc = mk(A)
    Pc.changeBasis(nb)
    clsc = cls_for(changed[0]) if changed else cls0
    ok = _cmp(v, "changeBasis", clsc, Pc.coefficients, exp, tol_cb, f"changeBasis {basis}->{nb}")
    if tuple(Pc.basis) != nb:
        v.fail("side-effects", clsc, f"basis label after changeBasis({nb}) is {Pc.basis}")
    if ok:
        v.checked("roundtrip")
        Pc.changeBasis(basis)
        back, bback = [], []
        for i in changed:
            G, Gb = refs[i].change(nb[i], basis[i])
            back.append((i, np.abs(G)))
            bback.append((i, Gb))
        tol_rt = (tfsum(changed) + 4 * EPS) * (_apply_seq(_apply_seq(absA, bmats), bback)) * 2
        _cmp(v, "roundtrip", clsc, Pc.coefficients, A, tol_rt, "changeBasis there and back")
        if changed:
            lin_check("changeBasis", clsc, lambda Q: (Q.changeBasis(nb), Q.coefficients)[1], tol_cb, "changeBasis")

    # ---- evaluate ---------------------------------------------------------------------
    ev_axes = list(case["ev_axes"])
    npts = len(case["ev_pts"][0])
    coords = np.empty((len(ev_axes), npts))
    for j, i in enumerate(ev_axes):
        full = np.asarray(grid.getCompactCoordinates(True, axes[i]["dir"]), dtype=float)
        for p in range(npts):
            coords[j, p] = _point_value(case["ev_pts"][j][p], full)
    Es = {i: refs[i].evalm(coords[j], basis[i]) for j, i in enumerate(ev_axes)}

    def ref_eval(arr, which):
        out = []
        for p in range(npts):
            tmp = arr
            for i in sorted(ev_axes, reverse=True):
                tmp = np.tensordot(Es[i][which][p], tmp, axes=(0, i))
            out.append(tmp)
        return np.array(out)

    exp = ref_eval(A, 0)
    tol_ev = (tfsum(ev_axes) + 4 * EPS) * ref_eval(absA, 1)
    clse = cls_for(ev_axes[0])
    partial = len(ev_axes) < rank
    v.label("eval:partial_axes" if partial else "eval:all_axes",
            *{f"pt:{s[0]}" for row in case["ev_pts"] for s in row})
    v.checked("evaluate")
    Pshared = mk(A)
    got = Pshared.evaluate(coords, tuple(ev_axes))
    _cmp(v, "evaluate", clse, got, exp, tol_ev, f"evaluate along axes {ev_axes}")
    # evaluate and derivative do not change the object: asking the same object again (also after a derivative was
    # taken from it) returns the same numbers as the first call (round-4 seed: per-axis index cache mutated in place)
    v.checked("evaluate-repeat")
    got2 = Pshared.evaluate(coords, tuple(ev_axes))
    Pshared.derivative(tuple(case["de_axes"]) if len(case["de_axes"]) != 1 else case["de_axes"][0])
    got3 = Pshared.evaluate(coords, tuple(ev_axes))
    for nm, g in (("second", got2), ("third (after derivative)", got3)):
        if not np.array_equal(np.asarray(g), np.asarray(got)):
            v.fail("evaluate-repeat", clse, f"{nm} evaluate on the same object differs from the first by "
                                            f"{np.max(np.abs(np.asarray(g) - np.asarray(got))):.3e}")
            break
    lin_check("evaluate", clse, lambda Q: Q.evaluate(coords, tuple(ev_axes)), tol_ev, "evaluate")
    if not partial:
        got = mk(A).evaluate(coords, None)
        _cmp(v, "evaluate", clse, got, exp, tol_ev, "evaluate with axes=None")
    if case["single"]:
        v.checked("evaluate-single-point")
        v.label("eval:single_point_partial" if partial else "eval:single_point_full")
        try:
            got = mk(A).evaluate(coords[:, 0], tuple(ev_axes))
        except TypeError as exc:
            v.fail("evaluate-single-point", "partial-axes" if partial else "all-axes",
                   f"evaluate with a 1-D coordinate of shape ({len(ev_axes)},) raised TypeError: {exc}")
        else:
            _cmp(v, "evaluate-single-point", "partial-axes" if partial else "all-axes",
                 np.asarray(got, dtype=float), np.asarray(exp[0]), tol_ev[0], "single-point evaluate")

    # ---- derivative ---------------------------------------------------------------------
    de = list(case["de_axes"])
    v.checked("derivative")
    mats = [(i, refs[i].D[basis[i]]) for i in de]
    bmats = [(i, refs[i].Db[basis[i]]) for i in de]
    exp = _apply_seq(A, mats)
    tol_de = (tfsum(de) + 4 * EPS) * _apply_seq(absA, bmats)
    clsd = cls_for(de[0])
    arg = de[0] if len(de) == 1 else tuple(de)
    dP = mk(A).derivative(arg)
    _cmp(v, "derivative", clsd, dP.coefficients, exp, tol_de, f"derivative along axes {de}")
    want_b = tuple("Cardinal" if i in de else basis[i] for i in range(rank))
    want_e = tuple(True if i in de else endpoints[i] for i in range(rank))
    v.checked("side-effects")
    if tuple(dP.basis) != want_b or tuple(dP.endpoints) != want_e or tuple(dP.direction) != direction:
        v.fail("side-effects", clsd, f"derivative labels {dP.basis} {dP.endpoints} {dP.direction}; expected {want_b} {want_e}")
    lin_check("derivative", clsd, lambda Q: Q.derivative(arg).coefficients, tol_de, "derivative")

    # ---- integrate ------------------------------------------------------------------------
    ia = list(case["in_axes"])
    specs = case["in_spec"]
    if all(s["r"] is not None for s in specs):
        v.checked("integrate")
        wtot = np.array(1.0).reshape((1,) * rank)
        lin, blin = [], []
        for i, s in zip(ia, specs):
            ref = refs[i]
            x = np.asarray(grid.getCompactCoordinates(endpoints[i], direction[i]), dtype=float)
            r_t = np.array(s["r"], dtype=float)
            rv = R.tval(x, r_t)
            rabs = np.full(x.shape, float(np.sum(np.abs(r_t))))
            wv = _weight_values(s["w"], x, rv)
            shape = [1] * rank
            shape[i] = x.size
            wtot = wtot * wv.reshape(shape)
            extra = dict(_weight_kinds(direction[i], endpoints[i]))[s["w"]]
            L = np.array([[np.pi * R.tmul(R.tmul(ref.BT[basis[i]][k], r_t), extra)[0] for k in range(ref.size)]])
            q = np.abs(ref.ax.quad_weights() * _weight_values(s["w"], x, rabs) * np.sqrt(1 - x**2))
            lin.append((i, L))
            blin.append((i, _quad_bound(ref, basis[i], q)[None, :]))
            v.label(f"w:{s['w']}", "w:fills_class" if len(s["r"]) - 1 + {"sqrt": 2, "invsqrt": 0, "ratio": 1}[s["w"]] + max(degs[i], 0) == 2 * ref.n - 1 else "w:inside_class")
        if case["wshape"] == "full":
            wtot = np.broadcast_to(wtot, A.shape).copy()
        exp = np.squeeze(_apply_seq(A, lin), axis=tuple(ia))
        tol_in = np.squeeze((tfsum(ia) + 8 * EPS) * _apply_seq(absA, blin), axis=tuple(ia)) * 2
        clsi = cls_for(ia[0]) + " w=" + specs[0]["w"]
        arg = ia[0] if len(ia) == 1 else tuple(ia)
        Pi = mk(A)
        res = Pi.integrate(arg, wtot)
        if len(ia) == rank:
            if not isinstance(res, float):
                v.fail("shape", clsi, f"integrate over all axes returned {type(res).__name__}, expected float")
            else:
                _cmp(v, "integrate", clsi, np.asarray(res), exp, tol_in, f"integrate along axes {ia}")
                if rank >= 1:
                    r2 = mk(A).integrate(None, wtot)
                    _cmp(v, "integrate", clsi, np.asarray(r2), exp, tol_in, "integrate(axis=None)")
        else:
            rest = [i for i in range(rank) if i not in ia]
            if not isinstance(res, Polynomial):
                v.fail("shape", clsi, f"integrate returned {type(res).__name__}, expected Polynomial")
            else:
                _cmp(v, "integrate", clsi, res.coefficients, exp, tol_in, f"integrate along axes {ia}")
                wb = tuple(basis[i] for i in rest)
                if tuple(res.basis) != wb or tuple(res.direction) != tuple(direction[i] for i in rest) \
                        or tuple(res.endpoints) != tuple(endpoints[i] for i in rest):
                    v.fail("side-effects", clsi, f"integrate result labels {res.basis} {res.direction} {res.endpoints}")
        # in-place conversion of the integrated axes to Cardinal must keep the polynomial
        v.checked("side-effects")
        want = tuple("Cardinal" if i in ia else basis[i] for i in range(rank))
        if tuple(Pi.basis) != want:
            v.fail("side-effects", clsi, f"basis labels after integrate are {Pi.basis}, expected {want}")
        else:
            ch = [i for i in ia if basis[i] != "Cardinal"]
            mats = [(i, refs[i].change(basis[i], "Cardinal")[0]) for i in ch]
            bm = [(i, refs[i].change(basis[i], "Cardinal")[1]) for i in ch]
            _cmp(v, "side-effects", clsi, Pi.coefficients, _apply_seq(A, mats),
                 (tfsum(ch) + 4 * EPS) * _apply_seq(absA, bm), "coefficients after integrate", key="side-effects")

        def f_int(Q):
            r = Q.integrate(arg, wtot)
            return np.asarray(r if isinstance(r, float) else r.coefficients)

        lin_check("integrate", clsi, f_int, tol_in, "integrate")
    else:
        v.label("integrate:no_room_in_exactness_class")


def check_case(case) -> Verdict:
    v = Verdict()
    if case["kind"] == "config":
        check_config(case, v)
    elif case["kind"] == "poly":
        check_poly(case, v)
    else:
        raise ValueError(case["kind"])
    ratios = [x for k, x in v.info.items() if k != "integrals_checked" and isinstance(x, float)]
    if ratios:
        m = max(ratios)
        v.label("err/bound:" + ("<0.01" if m < 0.01 else "<0.1" if m < 0.1 else "<0.5" if m < 0.5 else "<1" if m <= 1 else ">1"))
    return v
