#!/bin/bash
# Offline setup: everything comes from the pre-installed wheelhouse.
set -e
cd "$(dirname "$0")"
W=/opt/veriftools/wheels
/venv/bin/python -c "import hypothesis" 2>/dev/null || \
  /venv/bin/pip install --no-index --find-links $W hypothesis >/dev/null
mkdir -p .deps
/venv/bin/python -c "import sys; sys.path.insert(0,'.deps'); import jsonschema" 2>/dev/null || \
  /venv/bin/pip install --no-index --find-links $W --target .deps jsonschema >/dev/null 2>&1 || true
/venv/bin/python -c "import sys; sys.path.insert(0,'.deps'); import atheris" 2>/dev/null || \
  /venv/bin/pip install --no-index --find-links $W --target .deps atheris >/dev/null 2>&1 || true
mkdir -p evidence replays
echo "setup ok"
